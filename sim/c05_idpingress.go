package samlsim

import (
	"bytes"
	"compress/flate"
	"encoding/base64"
	"encoding/xml"
	"fmt"
	"io"
	"net/http"
	"net/http/httptest"
	"net/url"
	"sort"
	"strconv"
	"strings"
	"testing"
	"time"

	"github.com/beevik/etree"
	"github.com/crewjam/saml"
	"github.com/crewjam/saml/samlidp"
)

// C05 — the IdP answers only valid requests and routes only to registered ACS endpoints
// (profile `idp-ingress`).
//
// Simulator dimensions: the clock (request age at the IdP's skewed clock, boundary-biased),
// Mallory editing the *unsigned* AuthnRequest in flight (decode, edit with etree, re-encode),
// mis-delivery to another IdP tenant, and registry changes between issue and delivery. The registry is a map of
// descriptors (hand-built, or decoded by the library from metadata documents) or a real samlidp.Server where documents
// are stored under service names, several of which may carry one entity ID.
// The real SP issues the requests (both bindings); the real library IdP consumes them
// (NewIdpAuthnRequest+Validate, or ServeSSO with a stub session provider).

const (
	c05SSOA     = "https://idp.example.com/sso"
	c05SSOB     = "https://idp.example.com/sso/b" // tenant B: tenant A's SSO URL is a proper prefix of it
	c05EvilACS  = "https://evil.example.net/acs"
	c05UnkBind  = "urn:example:bindings:unknown"
	c05TimeForm = "2006-01-02T15:04:05.999Z07:00"
)

var c05SSO = [2]string{c05SSOA, c05SSOB}
var c05IdPBase = [2]string{"https://idp.example.com", "https://idp.example.com/b"}
var c05SPBase = [2]string{"https://sp0.example.com", "https://sp1.example.com"}

func c05Entity(sp int) string { return c05SPBase[sp] + "/saml/metadata" }

// c05Locs is the population of ACS locations of SP i: the SP's real ACS URL and near-misses of it.
func c05Locs(sp int) []string {
	b := c05SPBase[sp]
	return []string{b + "/saml/acs", b + "/saml/acs2", b + "/saml/acs/", b + "/saml/ac", b + "/saml/acs?x=1", "https://other.example.org/acs"}
}

type c05ACS struct {
	B   string `json:"b"` // post | redirect | artifact | unknown
	Loc string `json:"loc"`
	Idx int    `json:"idx"`
	Def *bool  `json:"def,omitempty"`
	// ResponseLocation attribute of the element (legal on any endpoint type, meaningless for an ACS): never a place to send an assertion to
	RLoc string `json:"response_location,omitempty"`
}

type c05Meta struct {
	Entity string     `json:"entity"`
	Descs  [][]c05ACS `json:"descs"` // one list per SPSSODescriptor
	// Doc: the provider is registered from a metadata *document* (written by the harness, read by the library's metadata
	// decoder, as samlsp.ParseMetadata and samlidp's PUT /services do) instead of a hand-built descriptor
	Doc bool `json:"as_document,omitempty"`
	// Names: the service names that carry this document when the registry is a samlidp.Server (none: one name made from its position)
	Names []string `json:"names,omitempty"`
}

type c05Knobs struct {
	MaxIssueDelayMs int64     `json:"MaxIssueDelay_ms"`
	MaxClockSkewMs  int64     `json:"MaxClockSkew_ms"`
	RegA            []c05Meta `json:"registry_a"`
	RegB            []c05Meta `json:"registry_b"`
	// Registry: what the IdP asks who a service provider is. "" = a map of descriptors; "server" = a samlidp.Server over a
	// MemoryStore, where documents are stored under service names (PUT/DELETE /services/<name>) and several names may carry one entity ID
	Registry string `json:"registry,omitempty"`
}

type c05Edit struct {
	Op    string `json:"op"` // set | del | issuer | drop_issuer | redate
	Name  string `json:"name,omitempty"`
	Value string `json:"value,omitempty"`
	Ms    int64  `json:"ms,omitempty"` // redate: new IssueInstant = delivery instant (IdP clock) - Ms
	// redate with Value set: IssueInstant becomes exactly this text (instants centuries away, beyond what a Duration can express)
}

type c05RegOp struct {
	Tenant int      `json:"tenant"`
	Op     string   `json:"op"` // deregister | register
	Entity string   `json:"entity"`
	Meta   *c05Meta `json:"meta,omitempty"`
	// Name (registry "server"): the service name that is put / deleted; other names carrying the entity ID stay
	Name string `json:"name,omitempty"`
}

type c05Step struct {
	Kind      string     `json:"kind"` // request | idp_initiated
	SP        int        `json:"sp"`
	Binding   string     `json:"binding"`    // redirect | post
	IssuedFor int        `json:"issued_for"` // tenant whose SSO URL the SP addressed
	Tenant    int        `json:"tenant"`     // tenant the message reaches
	Via       string     `json:"via"`        // validate | sso
	SPSkewMs  int64      `json:"sp_skew_ms"`
	IdPSkewMs int64      `json:"idp_skew_ms"`
	DelayMs   int64      `json:"delay_ms"`
	Age       string     `json:"age_class"`
	Edits     []c05Edit  `json:"edits,omitempty"`
	RegOps    []c05RegOp `json:"reg_ops,omitempty"`
	Entity    string     `json:"entity,omitempty"` // idp_initiated: requested service provider id
	// Interleave (via=validate): between decoding this request and validating it the IdP decodes another,
	// valid request of another login (two requests in flight at API granularity)
	Interleave bool `json:"interleave_other_request,omitempty"`
	// HostHeader: the Host the client puts on the HTTP request. "" = the SSO URL's own; "@destination" = the
	// host named by the delivered document's Destination attribute; anything else verbatim (a proxy's internal name).
	// The configured SSO URL, not the transport's Host, says where this IdP lives.
	HostHeader string `json:"host_header,omitempty"`
	// Extra: parameters the browser sends along with SAMLRequest and RelayState - the fields of a login form drawn by the IdP's
	// session provider and submitted together with the request it was drawn for, a submit button, a tracking parameter. The
	// statement judges the authentication request; nothing that travels beside it makes an invalid request valid (or a valid one invalid).
	Extra []c05Param `json:"extra_params,omitempty"`
}

// c05Param is one more parameter of the HTTP request. In: "body" = a field of the posted form (POST binding; the redirect
// binding has no body, there it travels in the query), "query" = a parameter of the URL.
type c05Param struct {
	In    string `json:"in"`
	Name  string `json:"name"`
	Value string `json:"value"`
}

func c05BindingURI(b string) string {
	switch b {
	case "post":
		return saml.HTTPPostBinding
	case "redirect":
		return saml.HTTPRedirectBinding
	case "artifact":
		return saml.HTTPArtifactBinding
	}
	return c05UnkBind
}

func c05BindingName(uri string) string {
	switch uri {
	case saml.HTTPPostBinding:
		return "post"
	case saml.HTTPRedirectBinding:
		return "redirect"
	case saml.HTTPArtifactBinding:
		return "artifact"
	case c05UnkBind:
		return "unknown"
	}
	return "?" + uri
}

func c05Descriptor(m *c05Meta) *saml.EntityDescriptor {
	ed := &saml.EntityDescriptor{EntityID: m.Entity}
	for _, d := range m.Descs {
		sd := saml.SPSSODescriptor{SSODescriptor: saml.SSODescriptor{RoleDescriptor: saml.RoleDescriptor{ProtocolSupportEnumeration: "urn:oasis:names:tc:SAML:2.0:protocol"}}}
		for _, a := range d {
			ep := saml.IndexedEndpoint{Binding: c05BindingURI(a.B), Location: a.Loc, Index: a.Idx}
			if a.RLoc != "" {
				rl := a.RLoc
				ep.ResponseLocation = &rl
			}
			if a.Def != nil {
				v := *a.Def
				ep.IsDefault = &v
			}
			sd.AssertionConsumerServices = append(sd.AssertionConsumerServices, ep)
		}
		ed.SPSSODescriptors = append(ed.SPSSODescriptors, sd)
	}
	return ed
}

func c05Flatten(m *c05Meta) []c05ACS {
	var out []c05ACS
	for _, d := range m.Descs {
		out = append(out, d...)
	}
	return out
}

func c05Browser(b string) bool { return b == "post" || b == "redirect" }

// c05Document writes the metadata document a provider of this shape publishes.
func c05Document(m *c05Meta) []byte {
	doc := etree.NewDocument()
	ed := doc.CreateElement("EntityDescriptor")
	ed.CreateAttr("xmlns", "urn:oasis:names:tc:SAML:2.0:metadata")
	ed.CreateAttr("entityID", m.Entity)
	for _, d := range m.Descs {
		sd := ed.CreateElement("SPSSODescriptor")
		sd.CreateAttr("protocolSupportEnumeration", "urn:oasis:names:tc:SAML:2.0:protocol")
		for _, a := range d {
			ep := sd.CreateElement("AssertionConsumerService")
			ep.CreateAttr("Binding", c05BindingURI(a.B))
			ep.CreateAttr("Location", a.Loc)
			if a.RLoc != "" {
				ep.CreateAttr("ResponseLocation", a.RLoc)
			}
			ep.CreateAttr("index", strconv.Itoa(a.Idx))
			if a.Def != nil {
				ep.CreateAttr("isDefault", strconv.FormatBool(*a.Def))
			}
		}
	}
	b, err := doc.WriteToBytes()
	if err != nil {
		panic(err)
	}
	return b
}

// c05Listed is what a descriptor lists, in the model's terms. For a provider registered from a document this is what the
// library's metadata decoder made of the document: reading metadata is not this property's subject, what the registered
// metadata lists is its premise (the decoder keeps no location for an endpoint whose binding it does not know).
func c05Listed(ed *saml.EntityDescriptor, m *c05Meta) *c05Meta {
	out := &c05Meta{Entity: ed.EntityID, Descs: [][]c05ACS{}, Doc: m.Doc, Names: m.Names}
	for _, sd := range ed.SPSSODescriptors {
		desc := []c05ACS{}
		for _, ep := range sd.AssertionConsumerServices {
			a := c05ACS{B: c05BindingName(ep.Binding), Loc: ep.Location, Idx: ep.Index}
			if ep.ResponseLocation != nil {
				a.RLoc = *ep.ResponseLocation
			}
			if ep.IsDefault != nil {
				v := *ep.IsDefault
				a.Def = &v
			}
			desc = append(desc, a)
		}
		out.Descs = append(out.Descs, desc)
	}
	return out
}

// c05Registry is one tenant's provider registry: the real thing the IdP asks, and beside it the harness's record of what
// was put there (the model's premise).
type c05Registry struct {
	lib    mapSPP                 // registry "": entity ID -> descriptor
	byID   map[string]*c05Meta    // registry "": entity ID -> what that descriptor lists
	server *samlidp.Server        // registry "server"
	stored map[string]*c05Meta    // registry "server": service name -> what the stored document lists
	probes map[string]int         // reached states, copied into the result by the caller
	refuse func(what string)      // the registry did not take a management call (another property's business)
	idp    *saml.IdentityProvider // the IdP that consults this registry
}

func c05NewRegistry(kind string, tenant int, refuse func(string)) *c05Registry {
	r := &c05Registry{probes: map[string]int{}, refuse: refuse}
	if kind == "server" {
		srv, err := samlidp.New(samlidp.Options{URL: mustURL(c05IdPBase[tenant]), Key: rsaKeys[0].Key, Certificate: rsaKeys[0].Cert, Logger: nullLog{}, Store: &samlidp.MemoryStore{}})
		if err != nil {
			panic(fmt.Sprintf("harness: samlidp.New: %v", err))
		}
		r.server, r.stored = srv, map[string]*c05Meta{}
		r.idp = &srv.IDP
		r.idp.LogoutURL = mustURL(c05IdPBase[tenant] + "/slo")
		return r
	}
	r.lib, r.byID = mapSPP{}, map[string]*c05Meta{}
	r.idp = newIdP(c05IdPBase[tenant], rsaKeys[0], r.lib)
	return r
}

// manage sends one management call to the bundled server; anything but "done" is not what this profile examines.
func (r *c05Registry) manage(method, name string, body []byte) bool {
	w := httptest.NewRecorder()
	hr := httptest.NewRequest(method, "https://idp.example.com/services/"+url.PathEscape(name), bytes.NewReader(body))
	pan := guard(func() { r.server.ServeHTTP(w, hr) })
	if pan != nil || w.Code != http.StatusNoContent {
		r.refuse(fmt.Sprintf("%s /services/%s: %v HTTP_%d", method, name, pan != nil, w.Code))
		return false
	}
	return true
}

// register puts m into the registry (registry "server": under the service name).
func (r *c05Registry) register(name string, m c05Meta) bool {
	var listed *c05Meta
	var ed *saml.EntityDescriptor
	if m.Doc || r.server != nil {
		m.Doc = true
		doc := c05Document(&m)
		ed = &saml.EntityDescriptor{}
		if err := xml.Unmarshal(doc, ed); err != nil {
			r.refuse("metadata document not read: " + short(err.Error(), 80))
			return false
		}
		listed = c05Listed(ed, &m)
		r.probes["provider-registered-from-document"]++
		if r.server != nil {
			if !r.manage("PUT", name, doc) {
				return false
			}
			r.stored[name] = listed
			if len(r.named(m.Entity)) > 1 {
				r.probes["entity-id-under-several-service-names"]++
			}
			return true
		}
	} else {
		ed, listed = c05Descriptor(&m), &m
	}
	r.lib[m.Entity], r.byID[m.Entity] = ed, listed
	return true
}

// deregister removes the entity (registry "server": the one service name; the entity stays known while another name carries it).
func (r *c05Registry) deregister(entity, name string) bool {
	if r.server == nil {
		delete(r.lib, entity)
		delete(r.byID, entity)
		return true
	}
	if r.stored[name] == nil {
		return true // nothing of that name (a simplified plan): no call
	}
	if !r.manage("DELETE", name, nil) {
		return false
	}
	entity = r.stored[name].Entity
	delete(r.stored, name)
	if len(r.named(entity)) > 0 {
		r.probes["service-name-removed-entity-id-still-carried"]++
	}
	return true
}

// named: the service names that carry the entity ID, in name order.
func (r *c05Registry) named(entity string) []string {
	var out []string
	for _, n := range sortedKeys(r.stored) {
		if r.stored[n].Entity == entity {
			out = append(out, n)
		}
	}
	return out
}

// registered: what is registered for the entity ID. Nothing: the issuer is unknown. Several: documents that differ are stored
// for it under different names, and the statement does not say which of them is "that registered provider's metadata" - each is.
func (r *c05Registry) registered(entity string) []*c05Meta {
	if r.server == nil {
		if m := r.byID[entity]; m != nil {
			return []*c05Meta{m}
		}
		return nil
	}
	var out []*c05Meta
	var seen []string
	for _, n := range r.named(entity) {
		m := r.stored[n]
		key := string(mustJSON(m.Descs))
		if !c05Has(seen, key) {
			seen = append(seen, key)
			out = append(out, m)
		}
	}
	return out
}

// ---------------------------------------------------------------- generation

func c05GenMeta(g *Rng, sp int) c05Meta {
	m := c05Meta{Entity: c05Entity(sp), Descs: [][]c05ACS{}}
	nd := g.PickW(1, 7, 3)
	locs := c05Locs(sp)
	next := 0
	var used []int
	for d := 0; d < nd; d++ {
		na := g.PickW(1, 3, 4, 3, 2)
		desc := []c05ACS{}
		for a := 0; a < na; a++ {
			e := c05ACS{}
			e.B = []string{"post", "redirect", "artifact", "unknown"}[g.PickW(6, 2, 2, 1)]
			e.Loc = locs[g.PickW(6, 4, 2, 2, 1, 1)]
			switch {
			case len(used) > 0 && g.Bool(0.2):
				e.Idx = used[g.Intn(len(used))] // duplicate index
			case len(used) > 0 && g.Bool(0.1):
				e.Idx = used[g.Intn(len(used))] + Pick(g, 65536, 65536, -65536) // schema-invalid but parsed: equal to another index only modulo 2^16
			case g.Bool(0.05):
				e.Idx = Pick(g, -1, 65535, 65536, 65537)
			case g.Bool(0.15):
				e.Idx = g.Intn(6)
			default:
				e.Idx = next
			}
			next++
			used = append(used, e.Idx)
			switch g.PickW(6, 3, 1) {
			case 1:
				t := true
				e.Def = &t
			case 2:
				f := false
				e.Def = &f
			}
			if g.Bool(0.12) {
				e.RLoc = Pick(g, "https://collector.example.net/slo-return", locs[len(locs)-1]+"/return")
			}
			desc = append(desc, e)
		}
		m.Descs = append(m.Descs, desc)
	}
	// most providers do list the URL their SP really asks for
	if next > 0 && g.Bool(0.7) {
		n := g.Intn(next)
		for d := range m.Descs {
			if n < len(m.Descs[d]) {
				m.Descs[d][n].Loc = locs[0]
				break
			}
			n -= len(m.Descs[d])
		}
	}
	return m
}

// c05ServiceNames: the names services are stored under at a samlidp.Server (their order matters to nobody but the server).
var c05ServiceNames = []string{"app", "crm", "portal", "portal-new", "wiki", "zz-old"}

func c05GenRegistry(g *Rng, server bool) []c05Meta {
	var out []c05Meta
	for sp := 0; sp < 2; sp++ {
		if sp == 0 && g.Bool(0.93) || sp == 1 && g.Bool(0.7) {
			out = append(out, c05GenMeta(g, sp))
		}
	}
	if !server {
		for i := range out {
			out[i].Doc = g.Bool(0.4)
		}
		return out
	}
	// a samlidp.Server stores documents under service names: one name, or two (a rename that kept the old name around)
	free := append([]string(nil), c05ServiceNames...)
	for i := range out {
		out[i].Doc = true
		for n := 1 + g.PickW(5, 5); n > 0; n-- {
			j := g.Intn(len(free))
			out[i].Names = append(out[i].Names, free[j])
			free = append(free[:j], free[j+1:]...)
		}
	}
	if len(out) == 2 && g.Bool(0.5) { // the order in which the services were registered
		out[0], out[1] = out[1], out[0]
	}
	return out
}

// c05Entry is the generator's view of one registration: a service name (registry "": the entity ID) and what it carries.
type c05Entry struct {
	name string
	meta c05Meta
}

func c05Entries(reg []c05Meta, server bool) []c05Entry {
	var out []c05Entry
	for i, m := range reg {
		if !server {
			out = append(out, c05Entry{m.Entity, m})
			continue
		}
		for _, n := range c05NamesOf(&m, i) {
			out = append(out, c05Entry{n, m})
		}
	}
	return out
}

func c05NamesOf(m *c05Meta, i int) []string {
	if len(m.Names) > 0 {
		return m.Names
	}
	return []string{"svc" + strconv.Itoa(i)}
}

func c05Find(reg []c05Entry, entity string) *c05Meta {
	for i := range reg {
		if reg[i].meta.Entity == entity {
			return &reg[i].meta
		}
	}
	return nil
}

var c05AgeClasses = []string{"far-in", "in+1ms", "out-1ms", "edge", "half-in", "half-out", "far-out", "x5", "future-near", "future-far"}

func c05DrawAge(g *Rng, mid int64) (int64, string) {
	switch g.PickW(44, 12, 12, 3, 4, 5, 6, 6, 4, 4) {
	case 0:
		a := Pick(g, int64(0), 1, 500, mid/10)
		if a >= mid {
			a = mid / 3
		}
		return a, "far-in"
	case 1:
		return mid - 1, "in+1ms"
	case 2:
		return mid + 1, "out-1ms"
	case 3:
		return mid, "edge"
	case 4:
		return mid / 2, "half-in"
	case 5:
		return mid + mid/2, "half-out"
	case 6:
		return mid + Pick(g, int64(10_000), 3_600_000, 86_400_000*365), "far-out"
	case 7:
		return 5 * mid, "x5"
	case 8:
		a := mid / 2
		if a > 500 {
			a = 500
		}
		return -a, "future-near"
	}
	return -(mid + 1000), "future-far"
}

func genIngress(g *Rng, tier string) *Plan {
	k := c05Knobs{
		MaxIssueDelayMs: Pick(g, int64(1000), 7000, 90_000, 660_000, 7_200_000),
		MaxClockSkewMs:  Pick(g, int64(0), 1000, 180_000, 1_020_000),
	}
	server := g.Bool(0.35)
	if server {
		k.Registry = "server"
	}
	k.RegA = c05GenRegistry(g, server)
	k.RegB = c05GenRegistry(g, server)
	if g.Bool(0.3) { // tenants that share one registry content
		k.RegB = append([]c05Meta(nil), k.RegA...)
	}
	p := &Plan{Knobs: mustJSON(k)}
	regs := [2][]c05Entry{c05Entries(k.RegA, server), c05Entries(k.RegB, server)}
	n := 1 + g.PickW(5, 3, 2)
	for i := 0; i < n; i++ {
		st := c05Step{Kind: "request", SP: g.PickW(3, 1), Binding: Pick(g, "redirect", "post"), Via: Pick(g, "validate", "validate", "validate", "sso", "sso")}
		st.Interleave = g.Bool(0.2)
		st.HostHeader = []string{"", "@destination", "internal-lb:8080"}[g.PickW(6, 3, 1)]
		if g.Bool(0.2) {
			st.IssuedFor = 1
		}
		st.Tenant = st.IssuedFor
		if g.Bool(0.15) {
			st.Tenant = 1 - st.IssuedFor
		}
		if g.Bool(0.07) {
			st.Kind = "idp_initiated"
			st.Via = "sso"
			st.Entity = Pick(g, c05Entity(0), c05Entity(0), c05Entity(1), "https://unknown.example.com/metadata")
			st.IdPSkewMs = Pick(g, int64(0), 1000, -1000)
			p.Steps = append(p.Steps, mustJSON(st))
			continue
		}
		// clock: request age at the IdP's clock
		age, cls := c05DrawAge(g, k.MaxIssueDelayMs)
		st.Age = cls
		st.IdPSkewMs = Pick(g, int64(0), 0, 1000, -1000, k.MaxClockSkewMs/2, -k.MaxClockSkewMs/2, 250_000, -250_000)
		st.SPSkewMs = Pick(g, int64(0), 0, 0, 500, -500)
		st.DelayMs = age - st.IdPSkewMs + st.SPSkewMs
		if st.DelayMs < 0 {
			st.IdPSkewMs, st.DelayMs = age+st.SPSkewMs, 0
		}
		// registry change between issue and delivery
		if g.Bool(0.14) || server && g.Bool(0.15) {
			ent := c05Entity(st.SP)
			op := c05RegOp{Tenant: st.Tenant, Entity: ent}
			var carrying, others, free []string
			for _, e := range regs[st.Tenant] {
				if e.meta.Entity == ent {
					carrying = append(carrying, e.name)
				} else {
					others = append(others, e.name)
				}
			}
			for _, n := range c05ServiceNames {
				if !c05Has(carrying, n) && !c05Has(others, n) {
					free = append(free, n)
				}
			}
			if g.Bool(0.4) {
				op.Op = "deregister"
				if server && len(carrying) > 0 {
					op.Name = carrying[g.Intn(len(carrying))] // one name goes; another may still carry the entity ID
				}
			} else {
				op.Op = "register"
				m := c05GenMeta(g, st.SP)
				m.Doc = server || g.Bool(0.4)
				op.Meta = &m
				if server {
					switch c := g.PickW(5, 3, 1); {
					case c == 0 && len(carrying) > 0:
						op.Name = carrying[g.Intn(len(carrying))] // the stored document is replaced
					case c == 2 && len(others) > 0:
						op.Name = others[g.Intn(len(others))] // a name that carried another entity ID changes hands
					case len(free) > 0:
						op.Name = free[g.Intn(len(free))] // one more name for the entity ID (the documents may differ)
					default:
						op.Name = "svc-new"
					}
				}
			}
			if !server || op.Name != "" {
				st.RegOps = append(st.RegOps, op)
			}
			// generator's view of the registry follows
			var nr []c05Entry
			for _, e := range regs[st.Tenant] {
				if server && e.name != op.Name || !server && e.meta.Entity != ent {
					nr = append(nr, e)
				}
			}
			if op.Op == "register" {
				name := op.Name
				if !server {
					name = ent
				}
				nr = append(nr, c05Entry{name, *op.Meta})
			}
			regs[st.Tenant] = nr
		}
		// Mallory
		if st.Tenant != st.IssuedFor && g.Bool(0.55) { // re-address the captured request to the tenant it is replayed to
			if g.Bool(0.5) {
				st.Edits = append(st.Edits, c05Edit{Op: "del", Name: "Destination"})
			} else {
				st.Edits = append(st.Edits, c05Edit{Op: "set", Name: "Destination", Value: c05SSO[st.Tenant]})
			}
		}
		cur := c05Find(regs[st.Tenant], c05Entity(st.SP))
		var flat []c05ACS
		if cur != nil {
			flat = c05Flatten(cur)
		}
		ne := g.PickW(35, 45, 20)
		for e := 0; e < ne; e++ {
			st.Edits = append(st.Edits, c05GenEdit(g, &st, flat, k.MaxIssueDelayMs)...)
		}
		if g.Bool(0.2) {
			st.Edits = append(st.Edits, c05Edit{Op: "add-conditions", Value: Pick(g, "2099-01-01T00:00:00Z", "9999-12-31T23:59:59Z", "2000-01-02T00:00:00Z")})
		}
		if g.Bool(0.2) {
			st.Edits = append(st.Edits, c05Edit{Op: Pick(g, "indent", "reprefix")})
		}
		if g.Bool(0.15) {
			op := Pick(g, "qualified", "declared")
			switch g.Intn(4) {
			case 0:
				st.Edits = append(st.Edits, c05Edit{Op: op, Name: "Destination", Value: c05SSO[st.Tenant]})
			case 1:
				st.Edits = append(st.Edits, c05Edit{Op: op, Name: "IssueInstant", Value: "@now"})
			case 2:
				st.Edits = append(st.Edits, c05Edit{Op: op, Name: "Version", Value: "2.0"})
			default:
				st.Edits = append(st.Edits, c05Edit{Op: op, Name: "Destination", Value: "https://other-idp.example.net/sso"}, c05Edit{Op: op, Name: "Version", Value: "1.1"})
			}
		}
		st.Extra = c05GenExtra(g, st.Binding)
		p.Steps = append(p.Steps, mustJSON(st))
	}
	return p
}

// c05GenExtra: what else the browser sends with the request (35% of the requests): the fields of a login form (filled in, or
// left empty), its submit button, parameters some page or proxy added; in the posted form or in the URL.
func c05GenExtra(g *Rng, binding string) []c05Param {
	if !g.Bool(0.35) {
		return nil
	}
	where := func() string {
		if binding == "post" && g.Bool(0.8) {
			return "body"
		}
		return "query"
	}
	var out []c05Param
	switch g.PickW(4, 2, 2, 2) {
	case 0: // a login form, submitted
		in := where()
		out = append(out, c05Param{in, "user", Pick(g, "alice", "bob", "")}, c05Param{in, "password", Pick(g, "hunter2", "wrong", "")})
		if g.Bool(0.5) {
			out = append(out, c05Param{in, "submit", "Log In"})
		}
	case 1: // one more field of whatever form carried the request
		out = append(out, c05Param{where(), Pick(g, "submit", "remember_me", "csrf_token", "lang"), Pick(g, "Log In", "on", "1", "")})
	case 2: // parameters added on the way
		out = append(out, c05Param{where(), Pick(g, "utm_source", "ref", "continue"), Pick(g, "newsletter", "https://sp0.example.com/", "")})
	default: // several, in both places
		for n := 2 + g.Intn(3); n > 0; n-- {
			out = append(out, c05Param{where(), Pick(g, "user", "password", "submit", "otp", "lang", "utm_source"), Pick(g, "alice", "hunter2", "Log In", "123456", "")})
		}
	}
	return out
}

func c05GenEdit(g *Rng, st *c05Step, flat []c05ACS, mid int64) []c05Edit {
	regIdx := func() string {
		if len(flat) == 0 {
			return "0"
		}
		return strconv.Itoa(flat[g.Intn(len(flat))].Idx)
	}
	unregIdx := func() string {
		mx := 0
		for _, a := range flat {
			if a.Idx >= mx {
				mx = a.Idx + 1
			}
		}
		if len(flat) > 0 && g.Bool(0.4) {
			// an index no endpoint carries but which equals a registered one modulo 2^16 (or 2^32): indices are compared as numbers, not as machine words
			have := map[int]bool{}
			for _, a := range flat {
				have[a.Idx] = true
			}
			base := flat[g.Intn(len(flat))].Idx
			for _, d := range []int{65536, -65536, 1 << 32, -(1 << 32)} {
				if !have[base+d] {
					return strconv.Itoa(base + d)
				}
			}
		}
		return strconv.Itoa(mx + g.Intn(3))
	}
	regLoc := func() string {
		if len(flat) == 0 {
			return c05Locs(st.SP)[1]
		}
		return flat[g.Intn(len(flat))].Loc
	}
	sso := c05SSO[st.Tenant]
	switch g.PickW(20, 18, 8, 12, 14, 12, 10, 7) {
	case 0: // ACS URL
		switch g.PickW(4, 3, 2, 2, 3, 2) {
		case 0:
			return []c05Edit{{Op: "set", Name: "AssertionConsumerServiceURL", Value: c05EvilACS}}
		case 1:
			return []c05Edit{{Op: "set", Name: "AssertionConsumerServiceURL", Value: regLoc() + Pick(g, "x", "/more", ".evil.example.net/")}}
		case 2:
			l := regLoc()
			return []c05Edit{{Op: "set", Name: "AssertionConsumerServiceURL", Value: l[:len(l)-1-g.Intn(3)]}}
		case 3:
			return []c05Edit{{Op: "set", Name: "AssertionConsumerServiceURL", Value: c05Locs(1 - st.SP)[g.Intn(2)]}}
		case 4:
			return []c05Edit{{Op: "set", Name: "AssertionConsumerServiceURL", Value: regLoc()}}
		}
		return []c05Edit{{Op: "set", Name: "AssertionConsumerServiceURL", Value: c05Locs(st.SP)[g.Intn(6)]}}
	case 1: // index added, URL kept (may disagree)
		switch g.PickW(6, 3, 2) {
		case 0:
			return []c05Edit{{Op: "set", Name: "AssertionConsumerServiceIndex", Value: regIdx()}}
		case 1:
			return []c05Edit{{Op: "set", Name: "AssertionConsumerServiceIndex", Value: unregIdx()}}
		}
		return []c05Edit{{Op: "set", Name: "AssertionConsumerServiceIndex", Value: Pick(g, "x1", "one", "-", "-1", "99999999999999999999")}}
	case 2: // index and a disagreeing URL
		return []c05Edit{{Op: "set", Name: "AssertionConsumerServiceIndex", Value: regIdx()},
			{Op: "set", Name: "AssertionConsumerServiceURL", Value: Pick(g, c05EvilACS, regLoc(), c05Locs(st.SP)[1])}}
	case 3: // index only
		ix := regIdx()
		if g.Bool(0.25) {
			ix = unregIdx()
		}
		return []c05Edit{{Op: "del", Name: "AssertionConsumerServiceURL"}, {Op: "set", Name: "AssertionConsumerServiceIndex", Value: ix}}
	case 4: // neither
		return []c05Edit{{Op: "del", Name: "AssertionConsumerServiceURL"}}
	case 5: // issuer
		switch g.PickW(3, 3, 2, 2, 1) {
		case 0:
			return []c05Edit{{Op: "issuer", Value: "https://unknown.example.com/metadata"}}
		case 1:
			return []c05Edit{{Op: "issuer", Value: c05Entity(1 - st.SP)}}
		case 2:
			return []c05Edit{{Op: "issuer", Value: c05Entity(st.SP) + Pick(g, "/", "x", "?")}}
		case 3:
			return []c05Edit{{Op: "drop_issuer"}}
		}
		return []c05Edit{{Op: "issuer", Value: ""}}
	case 6: // destination / version
		if g.Bool(0.5) {
			switch g.PickW(3, 2, 2, 3, 1, 3) {
			case 5:
				// another endpoint of this very IdP: its logout URL, its metadata URL (the SSO URL alone receives AuthnRequests)
				return []c05Edit{{Op: "set", Name: "Destination", Value: c05IdPBase[st.Tenant] + Pick(g, "/slo", "/slo", "/metadata", "/login")}}
			case 0:
				return []c05Edit{{Op: "set", Name: "Destination", Value: c05SSO[1-st.Tenant]}}
			case 1:
				return []c05Edit{{Op: "set", Name: "Destination", Value: sso + Pick(g, "/", "x", "?a=b")}}
			case 2:
				return []c05Edit{{Op: "set", Name: "Destination", Value: sso[:len(sso)-1]}}
			case 3:
				return []c05Edit{{Op: "del", Name: "Destination"}}
			}
			return []c05Edit{{Op: "set", Name: "Destination", Value: strings.Replace(sso, "idp.example.com", "IDP.example.com", 1)}}
		}
		if g.Bool(0.15) {
			return []c05Edit{{Op: "del", Name: "Version"}}
		}
		return []c05Edit{{Op: "set", Name: "Version", Value: Pick(g, "1.1", "", "2.0 ", "2", " 2.0", "2.00", "1.0", "3.0")}}
	}
	// re-date the request (unsigned, so Mallory may): new age drawn afresh
	if g.Bool(0.3) {
		return []c05Edit{{Op: "redate", Value: Pick(g, "1723-05-01T00:00:00Z", "1600-01-01T00:00:00Z", "1431-07-04T12:00:00Z", "1066-10-14T09:00:00Z", "0900-01-01T00:00:00Z", "0001-01-01T00:00:00Z", "1677-09-21T00:12:43Z")}}
	}
	age, _ := c05DrawAge(g, mid)
	return []c05Edit{{Op: "redate", Ms: age}}
}

// ---------------------------------------------------------------- wire coding owned by the harness (Mallory)

func c05Inflate(b64 string) ([]byte, error) {
	raw, err := base64.StdEncoding.DecodeString(b64)
	if err != nil {
		return nil, err
	}
	return io.ReadAll(io.LimitReader(flate.NewReader(bytes.NewReader(raw)), 1<<20))
}

func c05Deflate(xml []byte) string {
	var buf bytes.Buffer
	w, _ := flate.NewWriter(&buf, 9)
	_, _ = w.Write(xml)
	_ = w.Close()
	return base64.StdEncoding.EncodeToString(buf.Bytes())
}

// c05Wire is a request in flight, as the browser would carry it.
type c05Wire struct {
	binding string
	xml     []byte
	relay   string
}

func (w *c05Wire) httpRequest(sso string, extra []c05Param) *http.Request {
	q := ""
	sep := "?"
	if strings.Contains(sso, "?") {
		sep = "&"
	}
	add := func(name, value string) {
		q += sep + url.QueryEscape(name) + "=" + url.QueryEscape(value)
		sep = "&"
	}
	if w.binding == "redirect" {
		add("SAMLRequest", c05Deflate(w.xml))
		if w.relay != "" {
			add("RelayState", w.relay)
		}
	}
	fields := url.Values{"SAMLRequest": {base64.StdEncoding.EncodeToString(w.xml)}, "RelayState": {w.relay}}
	for _, x := range extra {
		if c05ProtocolParam(x.Name) {
			continue // a plan edited by hand: the request and its relay state travel once
		}
		if x.In == "body" && w.binding != "redirect" {
			fields.Add(x.Name, x.Value)
		} else {
			add(x.Name, x.Value)
		}
	}
	if w.binding == "redirect" {
		return httptest.NewRequest("GET", sso+q, nil)
	}
	return postRequest(sso+q, fields)
}

// c05ProtocolParam: the parameter names the bindings define; extra parameters are never one of these.
func c05ProtocolParam(name string) bool {
	switch name {
	case "SAMLRequest", "SAMLResponse", "RelayState", "SigAlg", "Signature", "SAMLEncoding", "SAMLart":
		return true
	}
	return false
}

// c05ExtraNames: where and under which names the extra parameters travel (for the log).
func c05ExtraNames(binding string, extra []c05Param) []string {
	var out []string
	for _, x := range extra {
		if c05ProtocolParam(x.Name) {
			continue
		}
		in := "query"
		if x.In == "body" && binding != "redirect" {
			in = "body"
		}
		v := "="
		if x.Value == "" {
			v = "=(empty)"
		}
		out = append(out, in+":"+x.Name+v)
	}
	return out
}

// c05View is what the delivered document says, read with the harness's own parser.
type c05View struct {
	version   string
	dest      string
	hasDest   bool
	issuer    string
	hasIssuer bool
	instant   time.Time
	instantOK bool
	acsURL    string
	acsIdx    string
	id        string
}

func c05Read(xml []byte) (*c05View, *etree.Document, error) {
	doc := etree.NewDocument()
	if err := doc.ReadFromBytes(xml); err != nil {
		return nil, nil, err
	}
	root := doc.Root()
	if root == nil {
		return nil, nil, fmt.Errorf("no root")
	}
	v := &c05View{}
	// the attributes the protocol defines are unqualified: what a request says in another namespace, or in its namespace declarations, it does not say here
	attr := func(name string) (string, bool) {
		for _, a := range root.Attr {
			if a.Space == "" && a.Key == name {
				return a.Value, true
			}
		}
		return "", false
	}
	v.version, _ = attr("Version")
	if d, ok := attr("Destination"); ok {
		v.dest, v.hasDest = d, true
	}
	for _, c := range root.ChildElements() {
		if c.Tag == "Issuer" {
			v.issuer, v.hasIssuer = c.Text(), true
		}
	}
	ii, _ := attr("IssueInstant")
	if t, err := time.Parse(c05TimeForm, ii); err == nil {
		v.instant, v.instantOK = t, true
	}
	v.acsURL, _ = attr("AssertionConsumerServiceURL")
	v.acsIdx, _ = attr("AssertionConsumerServiceIndex")
	v.id, _ = attr("ID")
	return v, doc, nil
}

func c05Apply(doc *etree.Document, e c05Edit, idpNow time.Time) {
	root := doc.Root()
	switch e.Op {
	case "set":
		root.RemoveAttr(e.Name)
		root.CreateAttr(e.Name, e.Value)
	case "del":
		root.RemoveAttr(e.Name)
	case "issuer":
		for _, c := range root.ChildElements() {
			if c.Tag == "Issuer" {
				c.SetText(e.Value)
			}
		}
	case "drop_issuer":
		for _, c := range root.ChildElements() {
			if c.Tag == "Issuer" {
				root.RemoveChild(c)
			}
		}
	case "qualified", "declared":
		// the request says something under the name of a protocol attribute, but in a foreign namespace (x:Destination="...") or as the
		// URI of a namespace prefix nobody uses (xmlns:Destination="..."): extension content; the unqualified attribute (or its absence) stands
		val := e.Value
		if val == "@now" {
			val = idpNow.UTC().Format(c05TimeForm)
		}
		if e.Op == "qualified" {
			root.CreateAttr("xmlns:x", "urn:example:ext")
			root.CreateAttr("x:"+e.Name, val)
		} else {
			root.CreateAttr("xmlns:"+e.Name, val)
		}
	case "add-conditions":
		// the (unsigned) request carries a Conditions element of its own, promising validity far into the future:
		// when a request is too old to be answered is the IdP's decision (IssueInstant + MaxIssueDelay)
		c := root.CreateElement("saml:Conditions")
		c.CreateAttr("xmlns:saml", "urn:oasis:names:tc:SAML:2.0:assertion")
		c.CreateAttr("NotBefore", "1990-01-01T00:00:00Z")
		c.CreateAttr("NotOnOrAfter", e.Value)
	case "indent":
		// the same request as another SP implementation would serialise it: line breaks and indentation between elements
		doc.Indent(2)
	case "reprefix":
		// ... and with other namespace prefixes (saml2p / saml2, as OpenSAML-based SPs write them)
		var all []*etree.Element
		c01All(root, &all)
		ren := map[string]string{"samlp": "saml2p", "saml": "saml2"}
		for _, el := range all {
			if to, ok := ren[el.Space]; ok {
				el.Space = to
			}
			for i, a := range el.Attr {
				if to, ok := ren[a.Key]; ok && a.Space == "xmlns" {
					el.Attr[i].Key = to
				}
			}
		}
	case "redate":
		root.RemoveAttr("IssueInstant")
		if e.Value != "" {
			root.CreateAttr("IssueInstant", e.Value)
		} else {
			root.CreateAttr("IssueInstant", idpNow.Add(-ms(e.Ms)).UTC().Format(c05TimeForm))
		}
	}
}

// ---------------------------------------------------------------- the model (from the statement)

type c05Expect struct {
	reject   []string // statement conditions that forbid processing
	zones    []string // declared don't-care zones touched (acceptance not decided)
	allowed  []c05ACS // endpoints the statement's chain permits on success
	mode     string   // which link of the chain decides
	rejectOK bool     // the chain does not oblige acceptance
}

func c05SameEP(a, b c05ACS) bool { return a.B == b.B && a.Loc == b.Loc && a.Idx == b.Idx }

func c05In(set []c05ACS, e c05ACS) bool {
	for _, x := range set {
		if c05SameEP(x, e) {
			return true
		}
	}
	return false
}

// c05Defaults: the default browser-binding endpoint(s), else the first browser-binding endpoint.
func c05Defaults(flat []c05ACS) ([]c05ACS, string) {
	var d []c05ACS
	for _, a := range flat {
		if a.Def != nil && *a.Def && c05Browser(a.B) {
			d = append(d, a)
		}
	}
	if len(d) > 0 {
		return d, "default"
	}
	for _, a := range flat {
		if c05Browser(a.B) {
			return []c05ACS{a}, "first-browser"
		}
	}
	return nil, "none"
}

// c05Model: meta is what is registered for the request's issuer (nil: nothing is).
func c05Model(v *c05View, meta *c05Meta, sso string, idpNow time.Time, mid int64) *c05Expect {
	x := &c05Expect{}
	// freshness
	if !v.instantOK {
		x.zones = append(x.zones, "unparsed-instant")
	} else {
		age := idpNow.Sub(v.instant).Milliseconds()
		switch {
		case age > mid:
			x.reject = append(x.reject, "stale")
		case age == mid:
			x.zones = append(x.zones, "freshness-edge")
		case age < 0 && -age >= mid:
			x.zones = append(x.zones, "future-dated")
		}
	}
	if v.version != "2.0" {
		x.reject = append(x.reject, "version")
	}
	if v.hasDest && v.dest != sso {
		x.reject = append(x.reject, "destination")
	}
	if !v.hasIssuer {
		x.reject = append(x.reject, "no-issuer")
		return x
	} else if meta == nil {
		x.reject = append(x.reject, "unregistered-issuer")
		return x
	}
	flat := c05Flatten(meta)
	var mIdx, mURL []c05ACS
	for _, a := range flat {
		if v.acsIdx != "" && strconv.Itoa(a.Idx) == v.acsIdx {
			mIdx = append(mIdx, a)
		}
		if v.acsURL != "" && a.Loc == v.acsURL {
			mURL = append(mURL, a)
		}
	}
	defs, defMode := c05Defaults(flat)
	switch {
	case v.acsIdx != "" && len(mIdx) > 0:
		x.allowed, x.mode = mIdx, "index"
		if v.acsURL != "" {
			agree := false
			for _, a := range mURL {
				if c05In(mIdx, a) {
					agree = true
				}
			}
			if !agree {
				x.rejectOK = true
				x.mode = "index-over-url"
				x.zones = append(x.zones, "index-and-url-disagree")
			}
		}
	case v.acsIdx != "" && len(mURL) > 0:
		// index named but not registered, URL registered: "else" may mean "if absent" or "if no match"
		x.allowed, x.mode, x.rejectOK = mURL, "url-after-unmatched-index", true
		x.zones = append(x.zones, "unmatched-index-with-registered-url")
	case v.acsIdx != "" || (v.acsURL != "" && len(mURL) == 0):
		// what was named is not registered: refusal, or continuing down the chain to the default, both satisfy the statement
		x.allowed, x.mode, x.rejectOK = defs, "unmatched-then-"+defMode, true
		x.zones = append(x.zones, "unmatched-request-endpoint")
	case v.acsURL != "":
		x.allowed, x.mode = mURL, "url"
	default:
		x.allowed, x.mode = defs, defMode
		if len(defs) == 0 {
			x.reject = append(x.reject, "no-eligible-endpoint")
		}
	}
	return x
}

func c05EPString(a c05ACS) string {
	d := ""
	if a.Def != nil {
		d = fmt.Sprintf(" def=%v", *a.Def)
	}
	return fmt.Sprintf("%s %s idx=%d%s", a.B, a.Loc, a.Idx, d)
}

func c05SetString(s []c05ACS) string {
	var out []string
	for _, a := range s {
		out = append(out, c05EPString(a))
	}
	return "{" + strings.Join(out, " | ") + "}"
}

// ---------------------------------------------------------------- execution

func execIngress(t *testing.T, p *Plan) *Result {
	res := newResult()
	k := decode[c05Knobs](p.Knobs)
	saml.MaxIssueDelay = ms(k.MaxIssueDelayMs)
	saml.MaxClockSkew = ms(k.MaxClockSkewMs)
	installRand(p)
	start := time.Now()

	// registries: what the IdP asks and what the model knows was put there
	session := &saml.Session{ID: "sess", NameID: marker("nid", 0), Index: "si", UserName: marker("user", 0)}
	var regs [2]*c05Registry
	var idps [2]*saml.IdentityProvider
	refused := ""
	for t, metas := range [2][]c05Meta{k.RegA, k.RegB} {
		regs[t] = c05NewRegistry(k.Registry, t, func(what string) {
			if refused == "" {
				refused = what
			}
		})
		idps[t] = regs[t].idp
		idps[t].SSOURL = mustURL(c05SSO[t])
		idps[t].SessionProvider = fixedSession{session}
		for i := range metas {
			for _, name := range c05NamesOf(&metas[i], i) {
				regs[t].register(name, metas[i])
			}
		}
	}
	if k.Registry == "server" {
		res.probe("registry-is-samlidp-server")
	}
	regProbes := func() {
		for t := range regs {
			addCounts(res.Probes, regs[t].probes)
			regs[t].probes = map[string]int{}
		}
	}
	regProbes()
	if refused != "" {
		res.Excluded = "the registry did not take a management call (C19's business)"
		res.logf("registry: %s", refused)
		return res
	}
	var sps [2][2]*saml.ServiceProvider
	for i := 0; i < 2; i++ {
		for t := 0; t < 2; t++ {
			md := idpMetadataFor(c05IdPBase[t]+"/metadata", c05SSO[t], "", []KeyPair{rsaKeys[0]}, nil, "signing")
			sps[i][t] = newSP(c05SPBase[i], rsaKeys[1+i], "", md)
		}
	}

	for si, raw := range p.Steps {
		st := decode[c05Step](raw)
		if st.SP < 0 || st.SP > 1 || st.Tenant < 0 || st.Tenant > 1 || st.IssuedFor < 0 || st.IssuedFor > 1 {
			continue
		}
		if st.Kind == "idp_initiated" {
			if !c05IdPInitiated(res, si, &st, idps[st.Tenant], regs[st.Tenant]) {
				return res
			}
			continue
		}
		if st.Kind != "request" {
			continue
		}
		// ---- the real SP issues
		spv := sps[st.SP][st.IssuedFor]
		wire := &c05Wire{binding: st.Binding, relay: "rs" + strconv.Itoa(si)}
		var issueErr error
		var pan any
		at(ms(st.SPSkewMs), func() {
			pan = guard(func() {
				if st.Binding == "redirect" {
					ar, err := spv.MakeAuthenticationRequest(spv.GetSSOBindingLocation(saml.HTTPRedirectBinding), saml.HTTPRedirectBinding, saml.HTTPPostBinding)
					if err != nil {
						issueErr = err
						return
					}
					u, err := ar.Redirect(wire.relay, spv)
					if err != nil {
						issueErr = err
						return
					}
					wire.xml, issueErr = c05Inflate(u.Query().Get("SAMLRequest"))
				} else {
					ar, err := spv.MakeAuthenticationRequest(spv.GetSSOBindingLocation(saml.HTTPPostBinding), saml.HTTPPostBinding, saml.HTTPPostBinding)
					if err != nil {
						issueErr = err
						return
					}
					f := parseForm(string(ar.Post(wire.relay)))
					if f == nil {
						issueErr = fmt.Errorf("no form")
						return
					}
					wire.xml, issueErr = base64.StdEncoding.DecodeString(f.Fields.Get("SAMLRequest"))
				}
			})
		})
		if pan != nil || issueErr != nil {
			res.Excluded = "SP could not issue a request (C12's business)"
			res.logf("step %d issue failed: %v %v", si, pan, issueErr)
			return res
		}
		// ---- network delay, registry history
		advance(ms(st.DelayMs))
		var ops []string
		for _, op := range st.RegOps {
			if op.Tenant < 0 || op.Tenant > 1 {
				continue
			}
			switch op.Op {
			case "deregister":
				regs[op.Tenant].deregister(op.Entity, op.Name)
			case "register":
				if op.Meta != nil {
					regs[op.Tenant].register(op.Name, *op.Meta)
				}
			}
			ops = append(ops, op.Op)
		}
		regProbes()
		if refused != "" {
			res.Excluded = "the registry did not take a management call (C19's business)"
			res.logf("registry: %s", refused)
			return res
		}
		idpNow := time.Now().Add(ms(st.IdPSkewMs))
		// ---- Mallory edits the unsigned document in flight
		_, doc, err := c05Read(wire.xml)
		if err != nil {
			panic("harness: cannot read the SP's request: " + err.Error())
		}
		var edits []string
		for _, e := range st.Edits {
			c05Apply(doc, e, idpNow)
			if e.Op == "set" || e.Op == "del" {
				edits = append(edits, e.Op+":"+e.Name)
			} else {
				edits = append(edits, e.Op)
			}
		}
		if len(st.Edits) > 0 {
			nb, err := doc.WriteToBytes()
			if err != nil {
				panic(err)
			}
			if !bytes.Equal(nb, wire.xml) {
				res.fire("tamper")
			}
			wire.xml = nb
		}
		view, _, err := c05Read(wire.xml)
		if err != nil {
			panic("harness: cannot re-read the edited request: " + err.Error())
		}
		// ---- oracle
		sso := c05SSO[st.Tenant]
		// what is registered for the issuer: one document, none, or (samlidp.Server) several that differ, stored under different names
		var cases []*c05Case
		if view.hasIssuer {
			for _, m := range regs[st.Tenant].registered(view.issuer) {
				cases = append(cases, &c05Case{meta: m})
			}
		}
		if len(cases) == 0 {
			cases = []*c05Case{{}}
		}
		for _, c := range cases {
			c.exp = c05Model(view, c.meta, sso, idpNow, k.MaxIssueDelayMs)
			c.expect = c05ExpectString(c.exp)
		}
		expect := cases[0].expect
		if len(cases) > 1 {
			expect += fmt.Sprintf(" (or what one of %d other documents stored for the entity ID yields)", len(cases)-1)
			res.probe("issuer-registered-with-differing-documents")
		}
		// ---- the real IdP
		hr := wire.httpRequest(sso, st.Extra)
		extras := c05ExtraNames(st.Binding, st.Extra)
		extraBody, extraFilled := false, false
		for i, x := range extras {
			if strings.HasPrefix(x, "body:") {
				extraBody = true
			}
			if !strings.HasSuffix(x, "=(empty)") {
				extraFilled = true
			}
			extras[i] = strings.TrimSuffix(x, "=")
		}
		if len(extras) > 0 {
			res.fire("transport:extra-parameters-beside-request")
		}
		switch {
		case st.HostHeader == "@destination":
			if du, e := url.Parse(view.dest); e == nil && view.hasDest && du.Host != "" && du.Host != hr.Host {
				hr.Host = du.Host
				res.fire("transport:host-header-follows-destination")
			}
		case st.HostHeader != "":
			hr.Host = st.HostHeader
			res.fire("transport:foreign-host-header")
		}
		var sel *c05ACS
		var observed string
		var action string
		code := 0
		at(ms(st.IdPSkewMs), func() {
			pan = guard(func() {
				if st.Via == "sso" {
					w := httptest.NewRecorder()
					idps[st.Tenant].ServeSSO(w, hr)
					code = w.Code
					if f := parseForm(w.Body.String()); code == 200 && f != nil && f.Fields.Get("SAMLResponse") != "" {
						action = f.Action
						observed = "FORM(" + action + ")"
					} else {
						observed = fmt.Sprintf("HTTP_%d", code)
					}
					return
				}
				req, err := saml.NewIdpAuthnRequest(idps[st.Tenant], hr)
				if err != nil {
					observed = "REJECT(parse)"
					return
				}
				if st.Interleave {
					// another login's request arrives (and is decoded) before this one is validated
					for n := 0; n < 3; n++ {
						osp := sps[(st.SP+1)%2][st.Tenant]
						if u2, e2 := osp.MakeRedirectAuthenticationRequest("other"); e2 == nil {
							if o, e3 := saml.NewIdpAuthnRequest(idps[st.Tenant], redirectRequest(u2)); e3 == nil {
								_ = o.Validate()
							}
						}
					}
				}
				if err := req.Validate(); err != nil {
					observed = "REJECT"
					return
				}
				if req.ACSEndpoint == nil {
					observed = "ACCEPT(no endpoint)"
					sel = &c05ACS{B: "none"}
					return
				}
				sel = &c05ACS{B: c05BindingName(req.ACSEndpoint.Binding), Loc: req.ACSEndpoint.Location, Idx: req.ACSEndpoint.Index}
				observed = "ACCEPT(" + c05EPString(*sel) + ")"
			})
		})
		res.logf("step %d %s via=%s sp%d tenant=%d(for %d) age=%s(%s) edits=%v regops=%v extra=%v expect=%s observed=%s", si, st.Binding, st.Via, st.SP, st.Tenant, st.IssuedFor, st.Age, c05AgeRel(view, idpNow, k.MaxIssueDelayMs), edits, ops, extras, expect, observed)

		// ---- bookkeeping
		if st.Age != "far-in" {
			res.fire("delay")
		}
		if st.IdPSkewMs != 0 || st.SPSkewMs != 0 {
			res.fire("clock_skew")
		}
		if st.Tenant != st.IssuedFor {
			res.fire("misdeliver")
		}
		if len(ops) > 0 {
			res.fire("registry_change")
		}
		nreg := 0
		if m := cases[0].meta; m != nil {
			nreg = len(c05Flatten(m))
		}
		if st.Age != "far-in" || len(st.Edits) > 0 || st.Tenant != st.IssuedFor || len(ops) > 0 || nreg >= 2 || len(extras) > 0 {
			res.Nontrivial = true
		}
		if pan != nil {
			if !view.hasIssuer {
				res.probe("panic-request-without-issuer")
			}
			res.Excluded = "panic (reported under C09)"
			res.logf("panic: %s", short(fmt.Sprint(pan), 80))
			return res
		}
		// ---- verdict: the outcome must be what the statement allows for (one of) the registered document(s)
		succeeded := sel != nil || action != ""
		var chosen *c05Case
		for _, c := range cases {
			c.verdict, c.notes = c05Judge(c, view, st.Via, sel, action, code, observed)
			if c.verdict == nil && chosen == nil {
				chosen = c
			}
		}
		if chosen == nil {
			v := cases[0].verdict
			for _, z := range cases[0].exp.zones {
				res.dontcare(z)
			}
			res.violate(si, v.Class, v.Signature, expect, observed, v.Detail)
			return res
		}
		exp := chosen.exp
		for _, z := range exp.zones {
			res.dontcare(z)
		}
		for _, n := range chosen.notes {
			res.probe(n)
		}
		if chosen.meta != nil {
			unlocated := false
			for _, a := range c05Flatten(chosen.meta) {
				if a.Loc == "" {
					unlocated = true
				}
			}
			if unlocated {
				res.probe("provider-lists-endpoint-without-location")
				if succeeded && view.acsURL == "" {
					res.probe("answered-request-without-url-beside-endpoint-without-location")
				}
			}
			if succeeded && len(regs[st.Tenant].named(view.issuer)) > 1 {
				res.probe("answered-issuer-under-several-service-names")
			}
		}
		if succeeded {
			switch exp.mode {
			case "index", "index-over-url":
				res.probe("selected-by-index")
				if view.acsURL != "" && view.acsURL != c05SelLoc(sel, action) {
					res.probe("index-selected-endpoint-differs-from-request-url")
				}
			case "url":
				res.probe("selected-by-url")
			case "default":
				res.probe("selected-default")
			case "first-browser":
				res.probe("selected-first-browser-binding")
			case "url-after-unmatched-index":
				res.probe("selected-by-url-after-unmatched-index")
			}
			if len(chosen.meta.Descs) > 1 && sel != nil && !c05In(chosen.meta.Descs[0], *sel) {
				res.probe("endpoint-of-second-descriptor-selected")
			}
			if st.Tenant != st.IssuedFor {
				res.probe("accepted-at-other-tenant-after-readdressing")
			}
			if len(ops) > 0 {
				res.probe("accepted-after-registry-change")
			}
			if st.Age == "in+1ms" && !c05Has(edits, "redate") {
				res.probe("accepted-1ms-inside")
			}
			if len(extras) > 0 {
				res.probe("answered-request-with-extra-parameters")
				if extraBody && extraFilled {
					res.probe("answered-request-posted-with-filled-in-form-fields")
				}
			}
		} else if len(exp.reject) == 1 {
			res.probe("rejected-only-for:" + exp.reject[0])
			if len(extras) > 0 {
				res.probe("rejected-with-extra-parameters-only-for:" + exp.reject[0])
				if extraBody && extraFilled {
					res.probe("rejected-posted-with-filled-in-form-fields-only-for:" + exp.reject[0])
				}
			}
			if exp.reject[0] == "stale" && st.Age == "out-1ms" && !c05Has(edits, "redate") {
				res.probe("rejected-1ms-outside")
			}
			if exp.reject[0] == "unregistered-issuer" && c05Has(ops, "deregister") {
				res.probe("rejected-after-deregistration")
			}
		}
	}
	res.SimMillis = time.Since(start).Milliseconds()
	return res
}

// c05Case: the expectation for one document registered for the issuer, and how the observed outcome fares against it.
type c05Case struct {
	meta    *c05Meta
	exp     *c05Expect
	expect  string
	verdict *Violation
	notes   []string
}

func c05ExpectString(exp *c05Expect) string {
	expect := "ACCEPT"
	switch {
	case len(exp.reject) > 0:
		expect = "REJECT" + fmt.Sprint(exp.reject)
	case len(exp.zones) > 0 && (exp.rejectOK || c05HasTimeZone(exp.zones)):
		expect = "DONT_CARE" + fmt.Sprint(exp.zones)
	}
	if len(exp.reject) == 0 {
		expect += " select(" + exp.mode + ")∈" + c05SetString(exp.allowed)
	}
	return expect
}

// c05Judge compares the observed outcome with the expectation of one case. nil: the statement is satisfied.
func c05Judge(c *c05Case, view *c05View, via string, sel *c05ACS, action string, code int, observed string) (*Violation, []string) {
	exp := c.exp
	succeeded := sel != nil || action != ""
	sigMode := exp.mode
	if sigMode == "" {
		sigMode = "none"
	}
	// necessary direction
	if succeeded && len(exp.reject) > 0 {
		return &Violation{Class: "accepted-invalid-request", Signature: "C05/accepted/" + exp.reject[0], Detail: "the statement forbids processing: " + strings.Join(exp.reject, ",")}, nil
	}
	if succeeded {
		flat := c05Flatten(c.meta)
		if via == "sso" {
			listed, ok := false, false
			for _, a := range flat {
				if a.Loc == action {
					listed = true
				}
			}
			for _, a := range exp.allowed {
				if a.Loc == action && a.B == "post" {
					ok = true
				}
			}
			if !listed {
				return &Violation{Class: "routed-outside-registry", Signature: "C05/unlisted-endpoint/" + c05Origin(action, view), Detail: "form action is not among the registered provider's ACS locations"}, nil
			}
			if !ok {
				return &Violation{Class: "wrong-endpoint-selected", Signature: "C05/wrong-endpoint/" + sigMode, Detail: "form action is a registered location but not the one the chain index→URL→default selects (or not an HTTP-POST endpoint)"}, nil
			}
			return nil, nil
		}
		if !c05In(flat, *sel) {
			return &Violation{Class: "routed-outside-registry", Signature: "C05/unlisted-endpoint/" + c05Origin(sel.Loc, view), Detail: "selected endpoint is not listed in the registered provider's metadata"}, nil
		}
		if !c05In(exp.allowed, *sel) {
			return &Violation{Class: "wrong-endpoint-selected", Signature: "C05/wrong-endpoint/" + sigMode, Detail: "selected endpoint is registered but not the one the chain index→URL→default selects"}, nil
		}
		return nil, nil
	}
	// sufficient direction
	var notes []string
	must := len(exp.reject) == 0 && len(exp.zones) == 0 && !exp.rejectOK
	if must && via == "sso" && code == 500 {
		// the chain may have selected a registered endpoint that cannot carry a POST form
		for _, a := range exp.allowed {
			if a.B != "post" {
				must = false
				notes = append(notes, "validated-but-selected-endpoint-not-post")
			}
		}
	}
	if must {
		return &Violation{Class: "rejected-valid-request", Signature: "C05/rejected-valid/" + sigMode, Detail: "fresh, version 2.0, destination ok, issuer registered, requested endpoint registered"}, nil
	}
	return nil, notes
}

// c05AgeRel names the relation of the delivered IssueInstant to the IdP clock (abstract, for the log).
func c05AgeRel(v *c05View, idpNow time.Time, mid int64) string {
	if !v.instantOK {
		return "unparsed"
	}
	age := idpNow.Sub(v.instant).Milliseconds()
	switch {
	case age < 0:
		return "future"
	case age == mid:
		return "edge"
	case age == mid+1:
		return "stale+1ms"
	case age == mid-1:
		return "fresh-1ms"
	case age > mid:
		return "stale"
	}
	return "fresh"
}

func c05SelLoc(sel *c05ACS, action string) string {
	if sel != nil {
		return sel.Loc
	}
	return action
}

func c05Has(xs []string, s string) bool {
	for _, x := range xs {
		if x == s {
			return true
		}
	}
	return false
}

func c05HasTimeZone(z []string) bool {
	for _, s := range z {
		if s == "freshness-edge" || s == "future-dated" || s == "unparsed-instant" {
			return true
		}
	}
	return false
}

// c05Origin says where an unlisted location came from (for the violation signature).
func c05Origin(loc string, v *c05View) string {
	if loc != "" && loc == v.acsURL {
		return "request-url-echoed"
	}
	return "elsewhere"
}

// c05IdPInitiated: the IdP-initiated launch must also route only into the registry.
func c05IdPInitiated(res *Result, si int, st *c05Step, idp *saml.IdentityProvider, reg *c05Registry) bool {
	var posts []string // HTTP-POST endpoints of (any of) the document(s) registered for the entity ID
	metas := reg.registered(st.Entity)
	var meta *c05Meta
	obliged := len(metas) > 0 // whichever document is meant, it lists an HTTP-POST endpoint
	for _, m := range metas {
		meta = m
		has := false
		for _, a := range c05Flatten(m) {
			if a.B == "post" {
				posts = append(posts, a.Loc)
				has = true
			}
		}
		if !has {
			obliged = false
		}
	}
	expect := "NO_FORM"
	if len(posts) > 0 {
		expect = "FORM∈" + fmt.Sprint(posts)
	}
	var observed, action string
	var pan any
	at(ms(st.IdPSkewMs), func() {
		pan = guard(func() {
			w := httptest.NewRecorder()
			idp.ServeIDPInitiated(w, httptest.NewRequest("GET", idp.SSOURL.String()+"/launch", nil), st.Entity, "rs")
			if f := parseForm(w.Body.String()); w.Code == 200 && f != nil && f.Fields.Get("SAMLResponse") != "" {
				action = f.Action
				observed = "FORM(" + action + ")"
			} else {
				observed = fmt.Sprintf("HTTP_%d", w.Code)
			}
		})
	})
	res.logf("step %d idp_initiated tenant=%d entity=%s expect=%s observed=%s", si, st.Tenant, st.Entity, expect, observed)
	if meta != nil && len(c05Flatten(meta)) >= 2 {
		res.Nontrivial = true
	}
	if pan != nil {
		res.Excluded = "panic (reported under C09)"
		res.logf("panic: %s", short(fmt.Sprint(pan), 80))
		return false
	}
	if action != "" {
		if !c05Has(posts, action) {
			res.violate(si, "routed-outside-registry", "C05/idp-initiated/unlisted-or-non-post-endpoint", expect, observed, "")
			return false
		}
		res.probe("idp-initiated-routed")
	} else if obliged {
		res.violate(si, "rejected-valid-request", "C05/idp-initiated/not-answered", expect, observed, "")
		return false
	}
	return true
}

// ---------------------------------------------------------------- simplification

func simplifyIngress(p *Plan) []*Plan {
	var out []*Plan
	for i, raw := range p.Steps {
		st := decode[c05Step](raw)
		mod := func(f func(s *c05Step)) {
			c := p.Clone()
			s2 := decode[c05Step](raw)
			f(&s2)
			c.Steps[i] = mustJSON(s2)
			out = append(out, c)
		}
		for j := range st.Edits {
			mod(func(s *c05Step) { s.Edits = append(append([]c05Edit{}, s.Edits[:j]...), s.Edits[j+1:]...) })
		}
		if len(st.RegOps) > 0 {
			mod(func(s *c05Step) { s.RegOps = nil })
		}
		if len(st.Extra) > 0 {
			mod(func(s *c05Step) { s.Extra = nil })
			for j := range st.Extra {
				if len(st.Extra) > 1 {
					mod(func(s *c05Step) { s.Extra = append(append([]c05Param{}, s.Extra[:j]...), s.Extra[j+1:]...) })
				}
			}
		}
		if st.Via == "sso" && st.Kind == "request" {
			mod(func(s *c05Step) { s.Via = "validate" })
		}
		if st.Tenant != st.IssuedFor {
			mod(func(s *c05Step) { s.Tenant = s.IssuedFor })
		}
		if st.IdPSkewMs != 0 || st.SPSkewMs != 0 {
			mod(func(s *c05Step) {
				d := s.DelayMs + s.IdPSkewMs - s.SPSkewMs
				if d >= 0 {
					s.DelayMs, s.IdPSkewMs, s.SPSkewMs = d, 0, 0
				}
			})
		}
		if st.Binding == "post" {
			mod(func(s *c05Step) { s.Binding = "redirect" })
		}
	}
	// smaller registries: drop one endpoint / one provider at a time
	k := decode[c05Knobs](p.Knobs)
	for t := 0; t < 2; t++ {
		get := func(kk *c05Knobs) *[]c05Meta {
			if t == 0 {
				return &kk.RegA
			}
			return &kk.RegB
		}
		for mi, m := range *get(&k) {
			{
				k2 := decode[c05Knobs](p.Knobs)
				r := get(&k2)
				*r = append(append([]c05Meta{}, (*r)[:mi]...), (*r)[mi+1:]...)
				c := p.Clone()
				c.Knobs = mustJSON(k2)
				out = append(out, c)
			}
			if len(m.Names) > 1 { // one service name less
				for ni := range m.Names {
					k2 := decode[c05Knobs](p.Knobs)
					nn := (*get(&k2))[mi].Names
					(*get(&k2))[mi].Names = append(append([]string{}, nn[:ni]...), nn[ni+1:]...)
					c := p.Clone()
					c.Knobs = mustJSON(k2)
					out = append(out, c)
				}
			}
			if m.Doc && k.Registry == "" { // a hand-built descriptor instead of a document
				k2 := decode[c05Knobs](p.Knobs)
				(*get(&k2))[mi].Doc = false
				c := p.Clone()
				c.Knobs = mustJSON(k2)
				out = append(out, c)
			}
			for di, d := range m.Descs {
				for ai := range d {
					k2 := decode[c05Knobs](p.Knobs)
					dd := (*get(&k2))[mi].Descs[di]
					(*get(&k2))[mi].Descs[di] = append(append([]c05ACS{}, dd[:ai]...), dd[ai+1:]...)
					c := p.Clone()
					c.Knobs = mustJSON(k2)
					out = append(out, c)
				}
			}
		}
	}
	if k.Registry != "" { // the map of descriptors instead of the bundled server (service names then mean nothing)
		k2 := decode[c05Knobs](p.Knobs)
		k2.Registry = ""
		c := p.Clone()
		c.Knobs = mustJSON(k2)
		out = append(out, c)
	}
	if k.MaxIssueDelayMs != 90_000 || k.MaxClockSkewMs != 180_000 {
		// default tolerances only if the age classes are re-derived, which the plan does not support: leave them
		_ = k
	}
	return out
}

var _ = sort.Strings

func init() {
	register(&Profile{
		ID: "C05", Name: "idp-ingress", Level: "exploration",
		Rule: "each run: two IdP tenants (SSO URLs where one is a prefix of the other) with registries of hand-built SP metadata (0-2 SPSSODescriptors, 0-4 ACS endpoints each, POST/Redirect/Artifact/unknown bindings, distinct/duplicate indices, isDefault true/false/absent, duplicate and near-miss locations); 1-3 steps, each: the real SP issues an AuthnRequest (redirect or POST binding), the network delays it so that its age at the IdP's skewed clock is {far-in, MaxIssueDelay-1ms, +1ms, edge, half, 1.5x, 5x, far-out, near/far future}, Mallory applies 0-2 edits to the unsigned document (ACS URL unregistered/near-miss/other registered, index registered/unregistered/non-numeric, index+disagreeing URL, neither, Issuer other/unknown/near-miss/dropped, Destination other tenant/near-miss/prefix/absent, Version variants, re-dating), the registry may change between issue and delivery, the message may reach the other tenant; the real IdP consumes it via NewIdpAuthnRequest+Validate or ServeSSO (plus IdP-initiated launches); non-trivial = a step with a non-far-in age, an edit, a cross-tenant delivery, a registry change, or a provider with >=2 registered endpoints; distinct = distinct abstract event log (binding, entry, age class, edit kinds, expectation incl. permitted endpoint set, outcome incl. selected endpoint); registered ACS elements may carry a ResponseLocation attribute (never a routing target); the HTTP Host header may follow the delivered document's Destination or name a proxy (the configured SSO URL alone says where the IdP lives); providers are registered from hand-built descriptors or (40%; always at a server) from metadata documents written by the harness and read by the library's metadata decoder (which keeps no Location for an endpoint of a binding it does not know); in 35% of runs each tenant's registry is a samlidp.Server over a MemoryStore, its IdentityProvider consulted with the SSO URL and a fixed session set on it: documents are PUT under one or two service names per entity ID in a drawn order, registry changes PUT a document under a name that carries the entity ID, a new name or a name of the other entity ID, or DELETE one name while another may still carry the entity ID; when documents that differ are stored for one entity ID the outcome must be what the statement yields for one of them; 35% of the requests travel with other parameters beside SAMLRequest/RelayState (a login form's user/password filled in or empty, a submit button, csrf/tracking parameters; in the posted form or in the URL), which change nothing about what the statement says of the request",
		Gen:  genIngress, Exec: execIngress, Simplify: simplifyIngress,
		RunsQuick: 8000, RunsThorough: 800000,
		Assumptions: []string{
			"instants are whole milliseconds; age exactly MaxIssueDelay is a declared don't-care",
			"a request dated MaxIssueDelay or more in the IdP's future is a declared don't-care (statement: 'within MaxIssueDelay of the IdP clock'; nearer future is treated as fresh)",
			"when the request names an index/URL that is not registered, both refusal and continuing down the chain (URL, then default) satisfy the statement; what is checked is that a selected endpoint is the one that link of the chain yields and is registered",
			"index given and registered but URL given and pointing elsewhere: the index must win if accepted; refusal is not an alarm",
			"browser-binding = HTTP-POST or HTTP-Redirect; requested index matches by canonical decimal text",
			"a request without Issuer must not be processed; the pinned tree panics on it (excluded here, reported under C09, counted by probe)",
			"what a provider registered from a metadata document lists is what the library's metadata decoder reads from that document (decoding metadata is not this property's subject); an endpoint it keeps without Location is listed, can be chosen by its index, and is never what a request that names no URL asked for",
			"registry = samlidp.Server: an entity ID is known while a stored service carries it; if the stored documents for it differ, each of them counts as that provider's registered metadata; a management call the server does not answer with 204 excludes the run (C19's business)",
		},
		Components: map[string][]string{
			"real": {"saml.ServiceProvider.MakeAuthenticationRequest", "AuthnRequest.Redirect/Post", "saml.NewIdpAuthnRequest", "IdpAuthnRequest.Validate (getACSEndpoint)", "IdentityProvider.ServeSSO / ServeIDPInitiated", "DefaultAssertionMaker, WriteResponse (via=sso)", "xml-roundtrip-validator, encoding/xml, flate", "saml.EntityDescriptor XML decoding (providers registered from documents)", "samlidp.Server PUT/DELETE /services and GetServiceProvider over samlidp.MemoryStore (registry=server)"},
			"stub": {"registry (map of EntityDescriptors; 35% of runs the real samlidp.Server instead)", "session provider (fixed session)", "network delay / clock skew (bubble clock)", "Mallory (etree edit + re-encode)", "browser (form parser)"},
		},
	})
}
