// Command mkfixture wrote the key pairs added to sim/fixtures after the first batch (run once; the
// files are committed, nothing generates keys at check time):
//
//	rsasig.pem     an RSA key whose certificate's keyUsage is digitalSignature only (a key meant for signing requests)
//	rsaski.pem     an RSA key whose certificate carries a SubjectKeyIdentifier (as openssl-made certificates do)
//	rsaskimal.pem  Mallory's RSA key under a self-signed certificate that copies rsaski's subject and SubjectKeyIdentifier
//	rsa4096.pem    a 4096-bit RSA key (signed requests carrying its certificate and signature exceed 4 KiB)
//	rsa1sig.pem    rsa1's key under a certificate whose keyUsage is digitalSignature only
//	rsa1ca.pem     rsa1's key under a self-signed certificate with basicConstraints CA:TRUE (what openssl req -x509 makes)
//	rsa1024.pem    a 1024-bit RSA key (the shortest crypto/rsa works with: the least room for key transport and signature padding)
//	rsaca.pem      a root CA (self-signed, CA:TRUE, keyCertSign)
//	rsaica.pem     an issuing CA whose certificate was issued by rsaca
//	rsaleaf.pem    an RSA key whose certificate was issued by rsaica (an IdP that got its certificate from a CA and sends the chain along)
//	ecleaf.pem     an ECDSA P-256 key whose certificate was issued by rsaica
//
// usage: go run ./cmd/mkfixture <fixtures dir> [only-missing]
package main

import (
	"crypto"
	"crypto/ecdsa"
	"crypto/elliptic"
	"crypto/rand"
	"crypto/rsa"
	"crypto/sha1"
	"crypto/x509"
	"crypto/x509/pkix"
	"encoding/pem"
	"math/big"
	"os"
	"path/filepath"
	"time"
)

func write(dir, name string, key *rsa.PrivateKey, tmpl *x509.Certificate) {
	der, err := x509.CreateCertificate(rand.Reader, tmpl, tmpl, &key.PublicKey, key)
	if err != nil {
		panic(err)
	}
	kb, err := x509.MarshalPKCS8PrivateKey(key)
	if err != nil {
		panic(err)
	}
	out := pem.EncodeToMemory(&pem.Block{Type: "PRIVATE KEY", Bytes: kb})
	out = append(out, pem.EncodeToMemory(&pem.Block{Type: "CERTIFICATE", Bytes: der})...)
	if err := os.WriteFile(filepath.Join(dir, name+".pem"), out, 0o644); err != nil {
		panic(err)
	}
}

// writeIssued writes key and a certificate for it that is issued by (signed with the key of) the given CA.
func writeIssued(dir, name string, key crypto.Signer, tmpl, caCert *x509.Certificate, caKey crypto.Signer) *x509.Certificate {
	der, err := x509.CreateCertificate(rand.Reader, tmpl, caCert, key.Public(), caKey)
	if err != nil {
		panic(err)
	}
	kb, err := x509.MarshalPKCS8PrivateKey(key)
	if err != nil {
		panic(err)
	}
	out := pem.EncodeToMemory(&pem.Block{Type: "PRIVATE KEY", Bytes: kb})
	out = append(out, pem.EncodeToMemory(&pem.Block{Type: "CERTIFICATE", Bytes: der})...)
	if err := os.WriteFile(filepath.Join(dir, name+".pem"), out, 0o644); err != nil {
		panic(err)
	}
	c, err := x509.ParseCertificate(der)
	if err != nil {
		panic(err)
	}
	return c
}

func main() {
	dir := os.Args[1]
	if len(os.Args) > 2 && os.Args[2] == "chain" {
		// root CA -> issuing CA -> an RSA and an ECDSA end-entity certificate
		nb, na := time.Date(1990, 1, 1, 0, 0, 0, 0, time.UTC), time.Date(2200, 1, 1, 0, 0, 0, 0, time.UTC)
		gen := func() *rsa.PrivateKey {
			k, err := rsa.GenerateKey(rand.Reader, 2048)
			if err != nil {
				panic(err)
			}
			return k
		}
		rootKey, icaKey, leafKey := gen(), gen(), gen()
		ecKey, err := ecdsa.GenerateKey(elliptic.P256(), rand.Reader)
		if err != nil {
			panic(err)
		}
		rootTmpl := &x509.Certificate{SerialNumber: big.NewInt(109), Subject: pkix.Name{CommonName: "rsaca"}, NotBefore: nb, NotAfter: na,
			KeyUsage: x509.KeyUsageCertSign | x509.KeyUsageCRLSign, BasicConstraintsValid: true, IsCA: true}
		root := writeIssued(dir, "rsaca", rootKey, rootTmpl, rootTmpl, rootKey)
		ica := writeIssued(dir, "rsaica", icaKey, &x509.Certificate{SerialNumber: big.NewInt(110), Subject: pkix.Name{CommonName: "rsaica"}, NotBefore: nb, NotAfter: na,
			KeyUsage: x509.KeyUsageCertSign | x509.KeyUsageCRLSign, BasicConstraintsValid: true, IsCA: true, MaxPathLenZero: true}, root, rootKey)
		writeIssued(dir, "rsaleaf", leafKey, &x509.Certificate{SerialNumber: big.NewInt(111), Subject: pkix.Name{CommonName: "rsaleaf"}, NotBefore: nb, NotAfter: na,
			KeyUsage: x509.KeyUsageDigitalSignature | x509.KeyUsageKeyEncipherment, BasicConstraintsValid: true}, ica, icaKey)
		writeIssued(dir, "ecleaf", ecKey, &x509.Certificate{SerialNumber: big.NewInt(112), Subject: pkix.Name{CommonName: "ecleaf"}, NotBefore: nb, NotAfter: na,
			KeyUsage: x509.KeyUsageDigitalSignature, BasicConstraintsValid: true}, ica, icaKey)
		return
	}
	if len(os.Args) > 2 && os.Args[2] == "rsaold2" {
		// a second key whose certificate lapsed in 1999, like rsaold's (an IdP all of whose listed certificates are outside their validity period)
		k, err := rsa.GenerateKey(rand.Reader, 2048)
		if err != nil {
			panic(err)
		}
		write(dir, "rsaold2", k, &x509.Certificate{SerialNumber: big.NewInt(107), Subject: pkix.Name{CommonName: "rsaold2"},
			NotBefore: time.Date(1990, 1, 1, 0, 0, 0, 0, time.UTC), NotAfter: time.Date(1999, 6, 1, 0, 0, 0, 0, time.UTC),
			KeyUsage: x509.KeyUsageDigitalSignature | x509.KeyUsageKeyEncipherment, BasicConstraintsValid: true})
		return
	}
	if len(os.Args) > 2 && os.Args[2] == "rsa1024" {
		k, err := rsa.GenerateKey(rand.Reader, 1024)
		if err != nil {
			panic(err)
		}
		write(dir, "rsa1024", k, &x509.Certificate{SerialNumber: big.NewInt(108), Subject: pkix.Name{CommonName: "rsa1024"},
			NotBefore: time.Date(1990, 1, 1, 0, 0, 0, 0, time.UTC), NotAfter: time.Date(2200, 1, 1, 0, 0, 0, 0, time.UTC),
			KeyUsage: x509.KeyUsageDigitalSignature | x509.KeyUsageKeyEncipherment, BasicConstraintsValid: true})
		return
	}
	if len(os.Args) > 2 && os.Args[2] == "rsa1-variants" {
		b, err := os.ReadFile(filepath.Join(dir, "rsa1.pem"))
		if err != nil {
			panic(err)
		}
		kb, _ := pem.Decode(b)
		k, err := x509.ParsePKCS8PrivateKey(kb.Bytes)
		if err != nil {
			panic(err)
		}
		nb, na := time.Date(1990, 1, 1, 0, 0, 0, 0, time.UTC), time.Date(2200, 1, 1, 0, 0, 0, 0, time.UTC)
		write(dir, "rsa1sig", k.(*rsa.PrivateKey), &x509.Certificate{SerialNumber: big.NewInt(105), Subject: pkix.Name{CommonName: "rsa1"}, NotBefore: nb, NotAfter: na,
			KeyUsage: x509.KeyUsageDigitalSignature | x509.KeyUsageContentCommitment, BasicConstraintsValid: true})
		write(dir, "rsa1ca", k.(*rsa.PrivateKey), &x509.Certificate{SerialNumber: big.NewInt(106), Subject: pkix.Name{CommonName: "rsa1"}, NotBefore: nb, NotAfter: na,
			KeyUsage: x509.KeyUsageDigitalSignature | x509.KeyUsageKeyEncipherment | x509.KeyUsageCertSign, BasicConstraintsValid: true, IsCA: true})
		return
	}
	if len(os.Args) > 2 { // later additions only: the files of the first call stay as committed
		k, err := rsa.GenerateKey(rand.Reader, 4096)
		if err != nil {
			panic(err)
		}
		write(dir, "rsa4096", k, &x509.Certificate{SerialNumber: big.NewInt(104), Subject: pkix.Name{CommonName: "rsa4096"},
			NotBefore: time.Date(1990, 1, 1, 0, 0, 0, 0, time.UTC), NotAfter: time.Date(2200, 1, 1, 0, 0, 0, 0, time.UTC),
			KeyUsage: x509.KeyUsageDigitalSignature | x509.KeyUsageKeyEncipherment, BasicConstraintsValid: true})
		return
	}
	nb, na := time.Date(1990, 1, 1, 0, 0, 0, 0, time.UTC), time.Date(2200, 1, 1, 0, 0, 0, 0, time.UTC)
	gen := func() *rsa.PrivateKey {
		k, err := rsa.GenerateKey(rand.Reader, 2048)
		if err != nil {
			panic(err)
		}
		return k
	}
	sig := gen()
	write(dir, "rsasig", sig, &x509.Certificate{SerialNumber: big.NewInt(101), Subject: pkix.Name{CommonName: "rsasig"}, NotBefore: nb, NotAfter: na,
		KeyUsage: x509.KeyUsageDigitalSignature, BasicConstraintsValid: true})
	ski := gen()
	id := sha1.Sum(x509.MarshalPKCS1PublicKey(&ski.PublicKey))
	write(dir, "rsaski", ski, &x509.Certificate{SerialNumber: big.NewInt(102), Subject: pkix.Name{CommonName: "rsaski"}, NotBefore: nb, NotAfter: na,
		KeyUsage: x509.KeyUsageDigitalSignature | x509.KeyUsageKeyEncipherment, BasicConstraintsValid: true, SubjectKeyId: id[:]})
	mal := gen()
	write(dir, "rsaskimal", mal, &x509.Certificate{SerialNumber: big.NewInt(102), Subject: pkix.Name{CommonName: "rsaski"}, NotBefore: nb, NotAfter: na,
		KeyUsage: x509.KeyUsageDigitalSignature | x509.KeyUsageKeyEncipherment, BasicConstraintsValid: true, SubjectKeyId: id[:]})
}
