// Command rewrite prepares a scratch copy of crewjam/saml for simulation; the simsync package is copied in.
//
//	rewrite <scratch repo copy> <dir holding simsync sources> mutex|pool|mutex,pool
//
// mutex (the C20 `sched` profile): every sync.Mutex / sync.RWMutex *type reference* in samlidp/*.go
// (non-test files) becomes simsync.Mutex / simsync.RWMutex, and every sync.Map becomes simsync.Map (its
// operations, and each visit of a Range, become decision points of the scheduler).
// pool (every profile, only when the tree under test uses sync.Pool at all): every sync.Pool type
// reference in any non-test file becomes simsync.Pool, the simulator's allocator seam.
package main

import (
	"bytes"
	"fmt"
	"go/ast"
	"go/format"
	"go/parser"
	"go/token"
	"os"
	"path/filepath"
	"strconv"
	"strings"
)

func die(format string, a ...any) {
	fmt.Fprintf(os.Stderr, format+"\n", a...)
	os.Exit(1)
}

func main() {
	if len(os.Args) != 4 {
		die("usage: rewrite <repo copy> <simsync dir> mutex|pool|mutex,pool")
	}
	repo, src := os.Args[1], os.Args[2]
	modes := map[string]bool{}
	for _, m := range strings.Split(os.Args[3], ",") {
		modes[m] = true
	}
	if err := os.MkdirAll(filepath.Join(repo, "simsync"), 0o755); err != nil {
		die("%v", err)
	}
	ents, err := os.ReadDir(src)
	if err != nil {
		die("%v", err)
	}
	for _, e := range ents {
		if strings.HasSuffix(e.Name(), ".go") {
			b, err := os.ReadFile(filepath.Join(src, e.Name()))
			if err != nil {
				die("%v", err)
			}
			if err := os.WriteFile(filepath.Join(repo, "simsync", e.Name()), b, 0o644); err != nil {
				die("%v", err)
			}
		}
	}
	total := 0
	_ = filepath.WalkDir(repo, func(f string, d os.DirEntry, err error) error {
		if err != nil {
			return nil
		}
		if d.IsDir() {
			if n := d.Name(); n == "simsync" || n == "testdata" || n == "example" || (strings.HasPrefix(n, ".") && f != repo) {
				return filepath.SkipDir
			}
			return nil
		}
		if !strings.HasSuffix(f, ".go") || strings.HasSuffix(f, "_test.go") {
			return nil
		}
		names := map[string]bool{}
		if modes["mutex"] && filepath.Base(filepath.Dir(f)) == "samlidp" {
			names["Mutex"], names["RWMutex"], names["Map"] = true, true, true
		}
		if modes["pool"] {
			names["Pool"] = true
		}
		if len(names) > 0 {
			total += rewriteFile(f, names)
		}
		return nil
	})
	fmt.Printf("rewrote %d sync type references\n", total)
}

func rewriteFile(path string, names map[string]bool) int {
	fset := token.NewFileSet()
	file, err := parser.ParseFile(fset, path, nil, parser.ParseComments)
	if err != nil {
		die("parse %s: %v", path, err)
	}
	syncName, atomicName := "", ""
	for _, imp := range file.Imports {
		p, _ := strconv.Unquote(imp.Path.Value)
		if p == "sync" {
			syncName = "sync"
			if imp.Name != nil {
				syncName = imp.Name.Name
			}
		}
		if p == "sync/atomic" && names["Mutex"] {
			atomicName = "atomic"
			if imp.Name != nil {
				atomicName = imp.Name.Name
			}
		}
	}
	if syncName == "" && atomicName == "" {
		return 0
	}
	atomicTypes := map[string]bool{"Pointer": true, "Value": true, "Int64": true, "Int32": true, "Uint64": true, "Uint32": true, "Bool": true}
	n := 0
	otherUse, otherAtomic := false, false
	ast.Inspect(file, func(node ast.Node) bool {
		sel, ok := node.(*ast.SelectorExpr)
		if !ok {
			return true
		}
		id, ok := sel.X.(*ast.Ident)
		if !ok || id.Obj != nil {
			return true
		}
		switch {
		case syncName != "" && id.Name == syncName:
			if names[sel.Sel.Name] {
				id.Name = "simsync"
				n++
			} else {
				otherUse = true
			}
		case atomicName != "" && id.Name == atomicName:
			// the typed atomics become scheduler decision points (the function forms, atomic.AddInt64(&x, 1), stay as they are)
			if atomicTypes[sel.Sel.Name] {
				id.Name = "simsync"
				sel.Sel.Name = "Atomic" + sel.Sel.Name
				n++
			} else {
				otherAtomic = true
			}
		}
		return true
	})
	if n == 0 {
		return 0
	}
	// fix imports
	for _, decl := range file.Decls {
		gd, ok := decl.(*ast.GenDecl)
		if !ok || gd.Tok != token.IMPORT {
			continue
		}
		var specs []ast.Spec
		for _, s := range gd.Specs {
			is := s.(*ast.ImportSpec)
			p, _ := strconv.Unquote(is.Path.Value)
			if p == "sync" && !otherUse {
				continue
			}
			if p == "sync/atomic" && atomicName != "" && !otherAtomic {
				continue
			}
			specs = append(specs, s)
		}
		specs = append(specs, &ast.ImportSpec{Path: &ast.BasicLit{Kind: token.STRING, Value: strconv.Quote("github.com/crewjam/saml/simsync")}})
		gd.Specs = specs
		if gd.Lparen == token.NoPos {
			gd.Lparen = gd.Pos()
			gd.Rparen = gd.End()
		}
		break
	}
	var buf bytes.Buffer
	if err := format.Node(&buf, fset, file); err != nil {
		die("format %s: %v", path, err)
	}
	if err := os.WriteFile(path, buf.Bytes(), 0o644); err != nil {
		die("%v", err)
	}
	return n
}
